package main

// Package-level variables that are constant after package initialisation: every use in the module is a load, or an
// element/field address that is only loaded from — except inside the package's init function, where it may be stored
// to. Such a variable (a lookup table, a digits string) is state that cannot change between calls.

import (
	"go/token"
	"go/types"
	"strings"
	"sync"

	"golang.org/x/tools/go/ssa"
)

var immutableGlobalCache = map[*ssa.Global]bool{}
var immutableMu sync.Mutex

func (p *Program) immutableGlobal(g *ssa.Global) bool {
	immutableMu.Lock()
	defer immutableMu.Unlock()
	if v, ok := immutableGlobalCache[g]; ok {
		return v
	}
	res := true
	var onlyLoaded func(v ssa.Value, inInit bool, d int) bool
	onlyLoaded = func(v ssa.Value, inInit bool, d int) bool {
		if d > 4 {
			return false
		}
		refs := v.Referrers()
		if refs == nil {
			return true
		}
		for _, u := range *refs {
			switch x := u.(type) {
			case *ssa.UnOp:
				if x.Op != token.MUL {
					return false
				}
			case *ssa.IndexAddr:
				if x.X != v || !onlyLoaded(x, inInit, d+1) {
					return false
				}
			case *ssa.FieldAddr:
				if !onlyLoaded(x, inInit, d+1) {
					return false
				}
			case *ssa.Store:
				if x.Addr != v || !inInit {
					return false
				}
			case *ssa.DebugRef:
			default:
				return false
			}
		}
		return true
	}
	for fn := range p.All {
		if !InModule(fn) {
			continue
		}
		inInit := fn.Name() == "init" && fn.Pkg == g.Pkg
		for _, b := range fn.Blocks {
			for _, in := range b.Instrs {
				for _, op := range in.Operands(nil) {
					if *op != ssa.Value(g) {
						continue
					}
					switch x := in.(type) {
					case *ssa.UnOp:
						if x.Op != token.MUL {
							res = false
						}
					case *ssa.IndexAddr:
						if !onlyLoaded(x, inInit, 0) {
							res = false
						}
					case *ssa.FieldAddr:
						if !onlyLoaded(x, inInit, 0) {
							res = false
						}
					case *ssa.Store:
						if x.Val == ssa.Value(g) && x.Addr != ssa.Value(g) {
							// the address is kept somewhere (a struct field): see below
							if !p.typeNeverWrittenThrough(g) {
								res = false
							}
						} else if x.Addr != ssa.Value(g) || !inInit {
							res = false
						}
					case *ssa.Slice:
						// table[:] handed on: constant as long as the slice is only read
						if x.X != ssa.Value(g) || !readOnlyUse(x, 0, map[ssa.Value]bool{}) {
							res = false
						}
					case *ssa.DebugRef:
					default:
						// the address itself is used as a value (kept in a struct field, handed to a function): still constant
						// if nothing in the module ever writes through a pointer to this type
						if !p.typeNeverWrittenThrough(g) {
							res = false
						}
					}
				}
			}
		}
	}
	immutableGlobalCache[g] = res
	return res
}

var neverWrittenCache = map[string]bool{}

// typeNeverWrittenThrough: for a package-level ARRAY variable g of type T: no instruction of the module stores through
// an address derived from a value of type *T (other than init through g itself), re-slices such a pointer, converts it,
// or hands it to a function outside the module. Go's type safety then makes every *T alias of g read-only.
func (p *Program) typeNeverWrittenThrough(g *ssa.Global) bool {
	T := g.Type().(*types.Pointer).Elem()
	if _, isArr := T.Underlying().(*types.Array); !isArr {
		return false
	}
	key := g.Pkg.Pkg.Path() + "." + g.Name()
	if v, ok := neverWrittenCache[key]; ok {
		return v
	}
	isPT := func(t types.Type) bool {
		pt, ok := t.(*types.Pointer)
		return ok && types.Identical(pt.Elem(), T)
	}
	res := true
	for fn := range p.All {
		if !InModule(fn) || !res {
			continue
		}
		for _, b := range fn.Blocks {
			for _, in := range b.Instrs {
				switch x := in.(type) {
				case *ssa.Store:
					base := x.Addr
					for {
						if ia, ok := base.(*ssa.IndexAddr); ok {
							base = ia.X
							continue
						}
						break
					}
					_, baseIsGlobal := base.(*ssa.Global)
					if base != x.Addr && isPT(base.Type()) && !(fn.Name() == "init" && baseIsGlobal) {
						// (a store in an init function directly into a package-level array — g or another table of the same
						// type — is initialisation, not a write through an alias)
						res = false
					}
					if isPT(x.Addr.Type()) && false {
						res = false
					}
					// a whole-array store *p = v
					if pt, ok := x.Addr.Type().(*types.Pointer); ok && types.Identical(pt.Elem(), T) {
						if _, addrIsGlobal := x.Addr.(*ssa.Global); !(fn.Name() == "init" && addrIsGlobal) {
							res = false
						}
					}
				case *ssa.Slice:
					if isPT(x.X.Type()) {
						res = false
					}
				case *ssa.ChangeType:
					if isPT(x.X.Type()) {
						res = false
					}
				case *ssa.Convert:
					if isPT(x.X.Type()) {
						res = false
					}
				case *ssa.MakeInterface:
					if isPT(x.X.Type()) {
						res = false
					}
				case ssa.CallInstruction:
					cc := x.Common()
					for _, a := range cc.Args {
						if isPT(a.Type()) {
							if cal := cc.StaticCallee(); cal == nil || !InModule(cal) {
								res = false
							}
						}
					}
				}
			}
		}
	}
	neverWrittenCache[key] = res
	return res
}

// constTableGlobal: the value of an immutable package-level array of integers (or an immutable string / integer
// variable) whose initialiser consists of constant stores in init: zero value plus those stores.
func (ex *Exec) constTableGlobal(g *ssa.Global) Val {
	if g.Pkg == nil || !strings.HasPrefix(g.Pkg.Pkg.Path(), modPath) || !ex.P.immutableGlobal(g) {
		return nil
	}
	elemT := g.Type().(*types.Pointer).Elem()
	initFn := g.Pkg.Func("init")
	if initFn == nil {
		return nil
	}
	switch u := elemT.Underlying().(type) {
	case *types.Array:
		isScalar := func(t types.Type) bool { _, isB := t.Underlying().(*types.Basic); return isB }
		elemStruct, _ := u.Elem().Underlying().(*types.Struct)
		if elemStruct != nil {
			for i := 0; i < elemStruct.NumFields(); i++ {
				if !isScalar(elemStruct.Field(i).Type()) {
					return nil
				}
			}
		} else if !isScalar(u.Elem()) {
			return nil
		}
		if u.Len() > 4096 {
			return nil
		}
		es := make([]Val, u.Len())
		for i := range es {
			es[i] = ex.zeroOf(u.Elem())
		}
		for _, b := range initFn.Blocks {
			for _, in := range b.Instrs {
				switch x := in.(type) {
				case *ssa.IndexAddr:
					if x.X != ssa.Value(g) {
						continue
					}
					k, okK := constInt(x.Index)
					if !okK || k < 0 || k >= u.Len() {
						return nil
					}
					for _, r := range *x.Referrers() {
						switch y := r.(type) {
						case *ssa.Store:
							cv, okC := y.Val.(*ssa.Const)
							if !okC || elemStruct != nil || y.Addr != ssa.Value(x) {
								return nil
							}
							es[k] = ex.constVal(cv)
						case *ssa.FieldAddr:
							sv, _ := es[k].(*StructV)
							if sv == nil {
								return nil
							}
							for _, r2 := range *y.Referrers() {
								st2, okS := r2.(*ssa.Store)
								if !okS {
									if _, isD := r2.(*ssa.DebugRef); isD {
										continue
									}
									return nil
								}
								cv, okC := st2.Val.(*ssa.Const)
								if !okC || st2.Addr != ssa.Value(y) {
									return nil
								}
								sv.Fields[y.Field] = ex.constVal(cv)
							}
						case *ssa.DebugRef:
						default:
							return nil
						}
					}
				case *ssa.Store:
					if x.Addr == ssa.Value(g) {
						return nil // whole-array store from a computed value: not modelled
					}
				}
			}
		}
		return &ArrayV{Elem: u.Elem(), Segs: []Seg{{Elems: es}}}
	case *types.Struct:
		// a struct of scalars (integers, floats, booleans, strings) built from constants: zero value plus the constant
		// field stores of init
		sv, _ := ex.zeroOf(elemT).(*StructV)
		if sv == nil {
			return nil
		}
		for i := 0; i < u.NumFields(); i++ {
			if _, isB := u.Field(i).Type().Underlying().(*types.Basic); !isB {
				return nil
			}
		}
		for _, b := range initFn.Blocks {
			for _, in := range b.Instrs {
				switch x := in.(type) {
				case *ssa.FieldAddr:
					if x.X != ssa.Value(g) {
						continue
					}
					for _, r := range *x.Referrers() {
						st, ok := r.(*ssa.Store)
						if !ok {
							continue
						}
						cv, okC := st.Val.(*ssa.Const)
						if !okC || x.Field < 0 || x.Field >= len(sv.Fields) {
							return nil
						}
						sv.Fields[x.Field] = ex.constVal(cv)
					}
				case *ssa.Store:
					if x.Addr == ssa.Value(g) {
						return nil // whole-struct store from a computed value: not modelled
					}
				}
			}
		}
		return sv
	case *types.Basic:
		var val Val
		n := 0
		for _, b := range initFn.Blocks {
			for _, in := range b.Instrs {
				if st, ok := in.(*ssa.Store); ok && st.Addr == ssa.Value(g) {
					n++
					cv, ok := st.Val.(*ssa.Const)
					if !ok {
						return nil
					}
					val = ex.constVal(cv)
				}
			}
		}
		if n == 1 {
			return val
		}
		if n == 0 {
			return ex.zeroOf(elemT)
		}
	}
	return nil
}

// readOnlyUse: the value (a slice, an element address, a parameter receiving the slice) is only read — indexed and
// loaded, ranged over, measured, re-sliced, or handed to a module function that only reads the corresponding parameter.
func readOnlyUse(v ssa.Value, depth int, seen map[ssa.Value]bool) bool {
	if depth > 3 {
		return false
	}
	if seen[v] {
		return true
	}
	seen[v] = true
	refs := v.Referrers()
	if refs == nil {
		return true
	}
	for _, u := range *refs {
		switch x := u.(type) {
		case *ssa.DebugRef:
		case *ssa.UnOp:
			if x.Op != token.MUL {
				return false
			}
			// a loaded element: scalars and structs of scalars only (checked by the caller), so nothing to follow
		case *ssa.IndexAddr:
			if x.X != v || !readOnlyUse(x, depth, seen) {
				return false
			}
		case *ssa.FieldAddr:
			if x.X != v || !readOnlyUse(x, depth, seen) {
				return false
			}
		case *ssa.Index, *ssa.Field, *ssa.Lookup:
		case *ssa.Range:
		case *ssa.Slice:
			if x.X != v || !readOnlyUse(x, depth, seen) {
				return false
			}
		case *ssa.Phi:
			if !readOnlyUse(x, depth, seen) {
				return false
			}
		case *ssa.BinOp:
			// comparison with nil
		case *ssa.Call:
			cc := x.Common()
			if bi, ok := cc.Value.(*ssa.Builtin); ok {
				if bi.Name() != "len" && bi.Name() != "cap" {
					return false
				}
				continue
			}
			cal := cc.StaticCallee()
			if cal == nil || cal.Blocks == nil || !InModule(cal) || cc.IsInvoke() {
				return false
			}
			for i, a := range cc.Args {
				if a == v {
					if i >= len(cal.Params) || !readOnlyUse(cal.Params[i], depth+1, seen) {
						return false
					}
				}
			}
		default:
			return false
		}
	}
	return true
}

var sliceLitCache = map[*ssa.Global]int{} // 1 yes, 2 no
var sliceLitMu sync.Mutex

// sliceLiteralGlobal: a package-level slice variable that init sets once to a literal of scalars / structs of scalars
// built from constants, and that the module afterwards only reads (a lookup table spelled as a slice).
func (ex *Exec) sliceLiteralGlobal(st *State, g *ssa.Global) (Val, bool) {
	if g.Pkg == nil || !strings.HasPrefix(g.Pkg.Pkg.Path(), modPath) {
		return nil, false
	}
	slT, ok := g.Type().(*types.Pointer).Elem().Underlying().(*types.Slice)
	if !ok {
		return nil, false
	}
	scalar := func(t types.Type) bool { _, isB := t.Underlying().(*types.Basic); return isB }
	elemStruct, _ := slT.Elem().Underlying().(*types.Struct)
	if elemStruct != nil {
		for i := 0; i < elemStruct.NumFields(); i++ {
			if !scalar(elemStruct.Field(i).Type()) {
				return nil, false
			}
		}
	} else if !scalar(slT.Elem()) {
		return nil, false
	}
	initFn := g.Pkg.Func("init")
	if initFn == nil {
		return nil, false
	}
	sliceLitMu.Lock()
	verdict := sliceLitCache[g]
	sliceLitMu.Unlock()
	if verdict == 2 {
		return nil, false
	}
	// the single store in init: a slice of a fresh array
	var theStore *ssa.Store
	for fn := range ex.P.All {
		if !InModule(fn) {
			continue
		}
		for _, b := range fn.Blocks {
			for _, in := range b.Instrs {
				for _, op := range in.Operands(nil) {
					if *op != ssa.Value(g) {
						continue
					}
					switch x := in.(type) {
					case *ssa.Store:
						if x.Addr != ssa.Value(g) || fn != initFn || theStore != nil {
							verdict = 2
						} else {
							theStore = x
						}
					case *ssa.UnOp:
						if x.Op != token.MUL {
							verdict = 2
						} else if verdict != 1 && !readOnlyUse(x, 0, map[ssa.Value]bool{}) {
							verdict = 2
						}
					case *ssa.DebugRef:
					default:
						verdict = 2
					}
				}
			}
		}
	}
	fail := func() (Val, bool) {
		sliceLitMu.Lock()
		sliceLitCache[g] = 2
		sliceLitMu.Unlock()
		return nil, false
	}
	if verdict == 2 || theStore == nil {
		return fail()
	}
	sl, ok := theStore.Val.(*ssa.Slice)
	if !ok || sl.Low != nil || sl.High != nil {
		return fail()
	}
	al, ok := sl.X.(*ssa.Alloc)
	if !ok {
		return fail()
	}
	arrT, ok := al.Type().(*types.Pointer).Elem().Underlying().(*types.Array)
	if !ok || arrT.Len() > 4096 {
		return fail()
	}
	es := make([]Val, arrT.Len())
	for i := range es {
		es[i] = ex.zeroOf(arrT.Elem())
	}
	for _, r := range *al.Referrers() {
		switch x := r.(type) {
		case *ssa.Slice, *ssa.DebugRef:
		case *ssa.IndexAddr:
			k, okK := constInt(x.Index)
			if !okK || k < 0 || k >= arrT.Len() {
				return fail()
			}
			for _, r2 := range *x.Referrers() {
				switch y := r2.(type) {
				case *ssa.Store:
					cv, okC := y.Val.(*ssa.Const)
					if !okC || y.Addr != ssa.Value(x) || elemStruct != nil {
						return fail()
					}
					es[k] = ex.constVal(cv)
				case *ssa.FieldAddr:
					sv, _ := es[k].(*StructV)
					if sv == nil {
						return fail()
					}
					for _, r3 := range *y.Referrers() {
						st3, okS := r3.(*ssa.Store)
						if !okS {
							if _, isD := r3.(*ssa.DebugRef); isD {
								continue
							}
							return fail()
						}
						cv, okC := st3.Val.(*ssa.Const)
						if !okC || st3.Addr != ssa.Value(y) {
							return fail()
						}
						sv.Fields[y.Field] = ex.constVal(cv)
					}
				case *ssa.DebugRef:
				default:
					return fail()
				}
			}
		default:
			return fail()
		}
	}
	sliceLitMu.Lock()
	sliceLitCache[g] = 1
	sliceLitMu.Unlock()
	n := mkConst(arrT.Len(), 64, true)
	id := ex.newObj(st, &ArrayV{Elem: arrT.Elem(), Segs: []Seg{{Elems: es}}}, nil)
	ex.constObj[id] = true
	return &SliceV{Obj: id, Off: mkConst(0, 64, true), Len: n, Cap: n}, true
}
