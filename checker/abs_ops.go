package main

import (
	"fmt"
	"go/token"
	"math/bits"
)

func (st *State) ident(v *IntV) string {
	if c, ok := st.ConstOf(v); ok {
		return fmt.Sprint(c)
	}
	return st.TermOf(v).String()
}

func (st *State) freshInt(prefix string, w int, signed bool) *IntV {
	return mkSym(st.ex.syms.Fresh(prefix, w, signed))
}

// derived returns a value identified by a canonical definition string with a given range.
func (st *State) derived(def string, w int, signed bool, lo, hi int64) *IntV {
	s := st.ex.syms.Get(def, w, signed)
	tl, th := typeRange(w, signed)
	lo, hi = max64(lo, tl), min64(hi, th)
	if lo > s.Lo || hi < s.Hi {
		// range is state dependent: refine in this state only
		st.refineSym(s, lo, hi)
	}
	return mkSym(s)
}

func fits(lo, hi int64, w int, signed bool) bool {
	tl, th := typeRange(w, signed)
	return lo >= tl && hi <= th
}

func isPow2(c int64) (int, bool) {
	if c > 0 && c&(c-1) == 0 {
		return bits.TrailingZeros64(uint64(c)), true
	}
	return 0, false
}

func bitAnd(a, b Bit) Bit {
	switch {
	case a.K == B0 || b.K == B0:
		return Bit{K: B0}
	case a.K == B1:
		return b
	case b.K == B1:
		return a
	case a.K == BSym && a == b:
		return a
	}
	return Bit{K: BTop}
}

func bitOr(a, b Bit) Bit {
	switch {
	case a.K == B1 || b.K == B1:
		return Bit{K: B1}
	case a.K == B0:
		return b
	case b.K == B0:
		return a
	case a.K == BSym && a == b:
		return a
	}
	return Bit{K: BTop}
}

func bitXor(a, b Bit) Bit {
	switch {
	case a.K == B0:
		return b
	case b.K == B0:
		return a
	case a.K == B1 && b.K == B1:
		return Bit{K: B0}
	case a.K == BSym && a == b:
		return Bit{K: B0}
	}
	return Bit{K: BTop}
}

func bitNot(a Bit) Bit {
	switch a.K {
	case B0:
		return Bit{K: B1}
	case B1:
		return Bit{K: B0}
	}
	return Bit{K: BTop}
}

// Convert changes width/signedness with Go's wrap-around semantics.
func (st *State) Convert(v *IntV, w int, signed bool) *IntV {
	if v.W == w && v.Signed == signed {
		return v
	}
	lo, hi := st.Range(v)
	if fits(lo, hi, w, signed) {
		r := &IntV{W: w, Signed: signed, T: st.TermOf(v)}
		return r
	}
	// relational facts may still bound the value (e.g. x > y  =>  x - y >= 1)
	if v.T != nil && !v.T.IsConst() {
		tl, th := typeRange(w, signed)
		ge, k1 := st.Decide(">=", v, mkConst(tl, v.W, v.Signed))
		le, k2 := true, true
		if hi > th {
			le, k2 = st.Decide("<=", v, mkConst(th, v.W, v.Signed))
		}
		if k1 && k2 && ge && le {
			return &IntV{W: w, Signed: signed, T: st.TermOf(v)}
		}
	}
	// reinterpretation / truncation: bit view
	src := st.BitsOf(v)
	out := make([]Bit, w)
	for j := 0; j < w; j++ {
		if j < len(src) {
			out[j] = src[j]
		} else if v.Signed {
			out[j] = src[len(src)-1]
		} else {
			out[j] = Bit{K: B0}
		}
	}
	st.ex.noteWrapConv++
	return &IntV{W: w, Signed: signed, Bits: out}
}

// Arith performs x op y for integer operands of equal type.
func (st *State) Arith(op token.Token, x, y *IntV, pos string) *IntV {
	w, signed := x.W, x.Signed
	xl, xh := st.Range(x)
	yl, yh := st.Range(y)
	wrapRes := func(def string) *IntV {
		st.Events = append(st.Events, Event{Kind: "wrap", Pos: pos, Msg: fmt.Sprintf("%s may leave %s%d", def, map[bool]string{true: "int", false: "uint"}[signed], w)})
		return st.freshInt("wrap:"+def, w, signed)
	}
	if cx, ok := st.ConstOf(x); ok {
		if cy, ok := st.ConstOf(y); ok {
			switch op {
			case token.ADD:
				return mkConst(signExtend(uint64(cx)+uint64(cy), w, signed), w, signed)
			case token.SUB:
				return mkConst(signExtend(uint64(cx)-uint64(cy), w, signed), w, signed)
			case token.MUL:
				return mkConst(signExtend(uint64(cx)*uint64(cy), w, signed), w, signed)
			}
		}
	}
	switch op {
	case token.ADD, token.SUB:
		sgn := int64(1)
		if op == token.SUB {
			sgn = -1
		}
		// disjoint bits => OR (only for ADD)
		if op == token.ADD && x.T == nil || op == token.ADD && y.T == nil {
			bx, by := st.BitsOf(x), st.BitsOf(y)
			disj := true
			for i := range bx {
				if bx[i].K != B0 && by[i].K != B0 {
					disj = false
					break
				}
			}
			if disj {
				out := make([]Bit, w)
				for i := range bx {
					out[i] = bitOr(bx[i], by[i])
				}
				return &IntV{W: w, Signed: signed, Bits: out}
			}
		}
		t := termAdd(st.TermOf(x), st.TermOf(y), sgn)
		lo, hi, ok := st.termRange(t)
		if ok && fits(lo, hi, w, signed) {
			return &IntV{W: w, Signed: signed, T: t}
		}
		// interval check independent of term correlation
		var l2, h2 int64
		var o1, o2 bool
		if sgn == 1 {
			l2, o1 = satAdd(xl, yl)
			h2, o2 = satAdd(xh, yh)
		} else {
			l2, o1 = satAdd(xl, -yh)
			h2, o2 = satAdd(xh, -yl)
		}
		if o1 && o2 && fits(l2, h2, w, signed) {
			return &IntV{W: w, Signed: signed, T: t}
		}
		return wrapRes(fmt.Sprintf("(%s)%s(%s)", st.ident(x), op, st.ident(y)))
	case token.MUL:
		if c, ok := st.ConstOf(y); ok {
			return st.mulConst(x, c, pos, wrapRes)
		}
		if c, ok := st.ConstOf(x); ok {
			return st.mulConst(y, c, pos, wrapRes)
		}
		cands := [][2]int64{{xl, yl}, {xl, yh}, {xh, yl}, {xh, yh}}
		lo, hi := int64(0), int64(0)
		for i, c := range cands {
			p, ok := satMul(c[0], c[1])
			if !ok {
				return wrapRes("mul")
			}
			if i == 0 || p < lo {
				lo = p
			}
			if i == 0 || p > hi {
				hi = p
			}
		}
		if !fits(lo, hi, w, signed) {
			return wrapRes(fmt.Sprintf("(%s)*(%s)", st.ident(x), st.ident(y)))
		}
		// (sum of symbols) * symbol: distribute, so that (p+d)*t and p*t + d*t are the same value (the whole product
		// fits the type, hence no partial wrap is hidden when all summands are non-negative)
		{
			tx, ty := st.TermOf(x), st.TermOf(y)
			sum, single := tx, ty
			if _, ok := tx.SingleSym(); ok {
				sum, single = ty, tx
			}
			if ss, ok := single.SingleSym(); ok && (len(sum.Syms) > 1 || (len(sum.Syms) == 1 && sum.C != 0)) {
				sl, sh := st.SymRange(ss)
				okD := sl >= 0
				r := termScale(symTerm(ss), sum.C)
				for i, u := range sum.Syms {
					ul, uh := st.SymRange(u)
					if ul < 0 || sum.Coefs[i] < 0 {
						okD = false
						break
					}
					pl, ok1 := satMul(ul, sl)
					ph, ok2 := satMul(uh, sh)
					if !ok1 || !ok2 {
						okD = false
						break
					}
					a, b := u.Name, ss.Name
					if a > b {
						a, b = b, a
					}
					m := st.derived(fmt.Sprintf("mul(%s,%s)", a, b), w, signed, pl, ph)
					r = termAdd(r, st.TermOf(m), sum.Coefs[i])
				}
				if okD && sum.C >= 0 {
					if rl, rh, ok := st.termRange(r); ok && fits(rl, rh, w, signed) {
						return &IntV{W: w, Signed: signed, T: r}
					}
				}
			}
		}
		a, b := st.ident(x), st.ident(y)
		if a > b {
			a, b = b, a
		}
		return st.derived(fmt.Sprintf("mul(%s,%s)", a, b), w, signed, lo, hi)
	case token.QUO:
		if yl <= 0 && yh >= 0 {
			st.Events = append(st.Events, Event{Kind: "div0", Pos: pos, Msg: "integer division by a value that may be zero"})
			if yl == 0 && yh == 0 {
				return st.freshInt("div0", w, signed)
			}
		}
		if c, ok := st.ConstOf(y); ok && c > 0 {
			if cx, ok := st.ConstOf(x); ok {
				return mkConst(cx/c, w, signed)
			}
			if c == 1 {
				return x
			}
			if k, p2 := isPow2(c); p2 && xl >= 0 {
				return st.ShiftR(x, k)
			}
			dl, dh := divRange(xl, xh, c)
			return st.derived(fmt.Sprintf("quo(%s,%d)", st.ident(x), c), w, signed, dl, dh)
		}
		if cx, ok := st.ConstOf(x); ok {
			if cy, ok := st.ConstOf(y); ok && cy != 0 {
				return mkConst(cx/cy, w, signed)
			}
		}
		lo, hi := typeRange(w, signed)
		if xl >= 0 && yl > 0 {
			lo, hi = xl/yh, xh/yl
		}
		return st.derived(fmt.Sprintf("quo(%s,%s)", st.ident(x), st.ident(y)), w, signed, lo, hi)
	case token.REM:
		if yl <= 0 && yh >= 0 {
			st.Events = append(st.Events, Event{Kind: "div0", Pos: pos, Msg: "integer remainder by a value that may be zero"})
		}
		if c, ok := st.ConstOf(y); ok && c > 0 {
			if cx, ok := st.ConstOf(x); ok {
				return mkConst(cx%c, w, signed)
			}
			if k, p2 := isPow2(c); p2 && xl >= 0 {
				bx := st.BitsOf(x)
				out := make([]Bit, w)
				for i := range out {
					if i < k {
						out[i] = bx[i]
					} else {
						out[i] = Bit{K: B0}
					}
				}
				return &IntV{W: w, Signed: signed, Bits: out}
			}
			if xl >= 0 {
				if xh < c {
					return x
				}
				return st.derived(fmt.Sprintf("rem(%s,%d)", st.ident(x), c), w, signed, 0, c-1)
			}
			return st.derived(fmt.Sprintf("rem(%s,%d)", st.ident(x), c), w, signed, -(c - 1), c-1)
		}
		lo, hi := typeRange(w, signed)
		return st.derived(fmt.Sprintf("rem(%s,%s)", st.ident(x), st.ident(y)), w, signed, lo, hi)
	case token.AND, token.OR, token.XOR, token.AND_NOT:
		if cx, ok := st.ConstOf(x); ok {
			if cy, ok := st.ConstOf(y); ok {
				var r int64
				switch op {
				case token.AND:
					r = cx & cy
				case token.OR:
					r = cx | cy
				case token.XOR:
					r = cx ^ cy
				case token.AND_NOT:
					r = cx &^ cy
				}
				return mkConst(signExtend(uint64(r), w, signed), w, signed)
			}
		}
		bx, by := st.BitsOf(x), st.BitsOf(y)
		out := make([]Bit, w)
		for i := range out {
			switch op {
			case token.AND:
				out[i] = bitAnd(bx[i], by[i])
			case token.OR:
				out[i] = bitOr(bx[i], by[i])
			case token.XOR:
				out[i] = bitXor(bx[i], by[i])
			case token.AND_NOT:
				out[i] = bitAnd(bx[i], bitNot(by[i]))
			}
		}
		return &IntV{W: w, Signed: signed, Bits: out}
	}
	return st.freshInt("op:"+op.String(), w, signed)
}

func divRange(lo, hi, c int64) (int64, int64) {
	a, b := lo/c, hi/c
	if a > b {
		a, b = b, a
	}
	return a, b
}

func (st *State) mulConst(x *IntV, c int64, pos string, wrapRes func(string) *IntV) *IntV {
	w, signed := x.W, x.Signed
	if cx, ok := st.ConstOf(x); ok {
		p, ok := satMul(cx, c)
		if ok && fits(p, p, w, signed) {
			return mkConst(p, w, signed)
		}
		if ok {
			st.Events = append(st.Events, Event{Kind: "wrap", Pos: pos, Msg: fmt.Sprintf("%d*%d leaves the %d-bit type", cx, c, w)})
			return mkConst(signExtend(uint64(p), w, signed), w, signed)
		}
	}
	xl, xh := st.Range(x)
	a, ok1 := satMul(xl, c)
	b, ok2 := satMul(xh, c)
	if a > b {
		a, b = b, a
	}
	if ok1 && ok2 && fits(a, b, w, signed) {
		if k, p2 := isPow2(c); p2 && xl >= 0 && x.T == nil {
			return st.Shift(token.SHL, x, k)
		}
		return &IntV{W: w, Signed: signed, T: termScale(st.TermOf(x), c)}
	}
	return wrapRes(fmt.Sprintf("(%s)*%d", st.ident(x), c))
}

// Shift by a constant amount.
func (st *State) Shift(op token.Token, x *IntV, k int) *IntV {
	w, signed := x.W, x.Signed
	if cx, ok := st.ConstOf(x); ok {
		var r uint64
		if op == token.SHL {
			if k >= 64 {
				r = 0
			} else {
				r = uint64(cx) << uint(k)
			}
			return mkConst(signExtend(r, w, signed), w, signed)
		}
		if k >= 64 {
			k = 63
		}
		if signed {
			return mkConst(cx>>uint(k), w, signed)
		}
		ux := uint64(cx)
		if w < 64 {
			ux &= (1 << uint(w)) - 1
		}
		return mkConst(int64(ux>>uint(k)), w, signed)
	}
	bx := st.BitsOf(x)
	out := make([]Bit, w)
	for i := range out {
		var src int
		if op == token.SHL {
			src = i - k
			if src < 0 {
				out[i] = Bit{K: B0}
				continue
			}
			out[i] = bx[src]
		} else {
			src = i + k
			if src >= w {
				if signed {
					out[i] = bx[w-1]
				} else {
					out[i] = Bit{K: B0}
				}
				continue
			}
			out[i] = bx[src]
		}
	}
	return &IntV{W: w, Signed: signed, Bits: out}
}

func cmpOpString(op token.Token) string {
	switch op {
	case token.EQL:
		return "=="
	case token.NEQ:
		return "!="
	case token.LSS:
		return "<"
	case token.LEQ:
		return "<="
	case token.GTR:
		return ">"
	case token.GEQ:
		return ">="
	}
	return ""
}

// Compare builds a BoolV for x op y.
func (st *State) Compare(op token.Token, x, y *IntV) *BoolV {
	s := cmpOpString(op)
	v, known := st.Decide(s, x, y)
	return &BoolV{Known: known, Val: v, Op: s, X: x, Y: y}
}

// Neg: -x
func (st *State) Neg(x *IntV, pos string) *IntV {
	zero := mkConst(0, x.W, x.Signed)
	return st.Arith(token.SUB, zero, x, pos)
}

// Compl: ^x
func (st *State) Compl(x *IntV) *IntV {
	if c, ok := st.ConstOf(x); ok {
		return mkConst(signExtend(^uint64(c), x.W, x.Signed), x.W, x.Signed)
	}
	bx := st.BitsOf(x)
	out := make([]Bit, x.W)
	for i := range out {
		out[i] = bitNot(bx[i])
	}
	return &IntV{W: x.W, Signed: x.Signed, Bits: out}
}

// ShiftR: x >> k for a constant k, keeping the interval of the quotient next to its bit view.
func (st *State) ShiftR(x *IntV, k int) *IntV {
	r := st.Shift(token.SHR, x, k)
	xl, xh := st.Range(x)
	// exact quotient of an affine value: x = c0 + 2^k * (sum ci' si) with 0 <= c0 and x >= 0 gives
	// x >> k = (c0 >> k) + sum ci' si, because the multiple of 2^k contributes nothing to the dropped bits
	if _, isC := st.ConstOf(r); !isC && x.T != nil && len(x.T.Syms) > 0 && xl >= 0 && k > 0 && k < 62 && x.T.C >= 0 {
		m := int64(1) << uint(k)
		all := true
		for _, cf := range x.T.Coefs {
			if cf%m != 0 {
				all = false
			}
		}
		if all {
			t := &Term{C: x.T.C >> uint(k)}
			for i, sy := range x.T.Syms {
				t.Syms = append(t.Syms, sy)
				t.Coefs = append(t.Coefs, x.T.Coefs[i]/m)
			}
			return &IntV{W: x.W, Signed: x.Signed, T: t, Bits: r.Bits}
		}
	}
	if _, isC := st.ConstOf(r); !isC && r.Bits != nil && xl >= 0 && k < 63 {
		t := st.termOf0(r)
		if sy, ok := t.SingleSym(); ok && sy.DefBits != nil {
			st.refineSym(sy, xl>>uint(k), xh>>uint(k))
			return &IntV{W: x.W, Signed: x.Signed, T: t, Bits: r.Bits}
		}
	}
	return r
}

// ShiftL: x << k for a constant k. When no bit can be shifted out (the value is non-negative and x*2^k fits the type),
// the result is the exact product, kept next to the bit view (so x<<5 and x*32 are the same value).
func (st *State) ShiftL(x *IntV, k int) *IntV {
	r := st.Shift(token.SHL, x, k)
	if _, isC := st.ConstOf(r); isC || k >= 62 {
		return r
	}
	xl, xh := st.Range(x)
	_, hi := typeRange(x.W, x.Signed)
	if xl >= 0 && xh <= hi>>uint(k) {
		return &IntV{W: x.W, Signed: x.Signed, T: termScale(st.TermOf(x), int64(1)<<uint(k)), Bits: r.Bits}
	}
	return r
}
