package main

import (
	"fmt"
	"go/token"
	"go/types"
	"strings"

	"golang.org/x/tools/go/ssa"
)

func init() { register("C03", checkC03) }

// nondeterminism sources on a path (C03.5)
func nondetScan(c *Ctx, rule string, scope []*ssa.Function) {
	p := c.P
	n := 0
	for _, fn := range scope {
		c.Fn(FuncName(fn))
		for _, b := range fn.Blocks {
			for _, in := range b.Instrs {
				bad := ""
				switch x := in.(type) {
				case *ssa.Range:
					if _, isMap := x.X.Type().Underlying().(*types.Map); isMap {
						bad = "range over a map (iteration order is random)"
					}
				case *ssa.Go:
					bad = "goroutine start"
				case *ssa.Select:
					bad = "select"
				case ssa.CallInstruction:
					if f := x.Common().StaticCallee(); f != nil {
						q := f.String()
						if strings.HasPrefix(q, "time.Now") || strings.HasPrefix(q, "math/rand.") || strings.HasPrefix(q, "crypto/rand.") || strings.HasPrefix(q, "time.Since") {
							bad = "call of " + q
						}
					}
				}
				if bad != "" {
					n++
					c.Bad(rule, "nondeterminism in "+FuncName(fn), p.Pos(in.Pos()), bad+" on the write path")
				}
			}
		}
	}
	if n == 0 {
		c.OK(rule, "effect scan of the write path", "-", fmt.Sprintf("%d functions reachable from WriteTo (logger callbacks excluded): no map range, clock, random source, goroutine or select", len(scope)))
	}
}

// trackAppendDiscipline (C03.4): in methods of *Track every store to the track is dominated by the not-closed test;
// Close appends the end-of-track constant; Add never does.
func trackAppendDiscipline(c *Ctx, rule string) {
	p := c.P
	tt := p.namedType("smf", "Track")
	evT := p.namedType("smf", "Event")
	if tt == nil || evT == nil {
		c.Unk(rule, "types smf.Track / smf.Event", "-", "not found")
		return
	}
	isClosed := p.MethodOf(tt, "IsClosed")
	add := p.MethodOf(types.NewPointer(tt), "Add")
	cls := p.MethodOf(types.NewPointer(tt), "Close")
	if isClosed == nil || add == nil || cls == nil {
		c.Unk(rule, "Track.IsClosed / Add / Close", "-", "not found")
		return
	}
	c.Fn(FuncName(isClosed))
	c.Fn(FuncName(add))
	c.Fn(FuncName(cls))
	// Decided on abstract runs of the three methods on tracks of each kind (empty / open: last event a channel message /
	// closed: last event FF 2F 00), with symbolic deltas and data bytes — not on how the guard is spelled:
	//   IsClosed: false, false, true            Close(d): appends exactly (d, FF 2F 00) to an empty or open track,
	//   Add(d, m) on a closed track: no change                leaves a closed track as it is
	k8 := func(v int64) Val { return mkConst(v, 8, false) }
	type kind int
	const (
		empty kind = iota
		open
		closed
		nearly // last event FF 2F 01 xx: a meta event of type 2F that is NOT the end-of-track event
	)
	names := map[kind]string{empty: "empty", open: "open", closed: "closed", nearly: "open (last event FF 2F 01 xx)"}
	mkTrack := func(ex *Exec, st *State, k kind) (int, []Val) {
		var evs []Val
		if k != empty {
			ev := ex.zeroOf(evT).(*StructV)
			ev.Fields[fieldIndex(ev.T, "Delta")] = mkSym(ex.syms.Get("d0", 32, false))
			ev.Fields[fieldIndex(ev.T, "Message")] = ex.mkBytes(st, "m0", []Val{k8(0x93), dataTok(ex, st, "k0"), dataTok(ex, st, "v0")}, false, 0)
			evs = append(evs, ev)
		}
		if k == closed {
			ev := ex.zeroOf(evT).(*StructV)
			ev.Fields[fieldIndex(ev.T, "Delta")] = mkSym(ex.syms.Get("d1", 32, false))
			ev.Fields[fieldIndex(ev.T, "Message")] = ex.mkBytes(st, "eot", []Val{k8(0xFF), k8(0x2F), k8(0x00)}, false, 0)
			evs = append(evs, ev)
		}
		if k == nearly {
			ev := ex.zeroOf(evT).(*StructV)
			ev.Fields[fieldIndex(ev.T, "Delta")] = mkSym(ex.syms.Get("d1", 32, false))
			ev.Fields[fieldIndex(ev.T, "Message")] = ex.mkBytes(st, "m2f", []Val{k8(0xFF), k8(0x2F), k8(0x01), ex.byteSym("x")}, false, 0)
			evs = append(evs, ev)
		}
		var tv Val
		if len(evs) == 0 {
			tv = ex.zeroOf(tt)
		} else {
			aid := ex.newObj(st, &ArrayV{Elem: evT, Segs: []Seg{{Elems: evs}}}, nil)
			n := mkConst(int64(len(evs)), 64, true)
			tv = &SliceV{Obj: aid, Off: mkConst(0, 64, true), Len: n, Cap: n}
		}
		return ex.newObj(st, tv, tt), evs
	}
	isEOT := func(st *State, ex *Exec, ev *StructV) bool {
		ms, _ := ev.Fields[fieldIndex(ev.T, "Message")].(*SliceV)
		if ms == nil {
			return false
		}
		el, ok := ex.sliceElems(st, ms)
		if !ok || len(el) != 3 {
			return false
		}
		for i, w := range []int64{0xFF, 0x2F, 0x00} {
			iv, _ := el[i].(*IntV)
			if iv == nil {
				return false
			}
			if cv, k := st.ConstOf(iv); !k || cv != w {
				return false
			}
		}
		return true
	}
	for _, k := range []kind{empty, open, closed, nearly} {
		// IsClosed
		{
			ex := NewExec(p)
			st := ex.NewState()
			tobj, _ := mkTrack(ex, st, k)
			ok, why, n := true, "", 0
			for _, o := range ex.Call(st, isClosed, []Val{st.heap[tobj]}, nil) {
				n++
				bv, _ := o.Ret[0].(*BoolV)
				v, known := false, false
				if bv != nil {
					v, known = o.St.boolOf(bv)
				}
				if o.Panic || !known || v != (k == closed) {
					ok, why = false, fmt.Sprintf("IsClosed of the %s track is %s, expected %v %s", names[k], valString(o.Ret[0]), k == closed, o.Msg)
				}
			}
			c.Check(ok && n > 0, rule, "Track.IsClosed on the "+names[k]+" track", p.Pos(isClosed.Pos()), fmt.Sprintf("%v", k == closed), why)
		}
		// Close
		{
			ex := NewExec(p)
			st := ex.NewState()
			tobj, evs := mkTrack(ex, st, k)
			d := mkSym(ex.syms.Get("dc", 32, false))
			ok, why, n := true, "", 0
			for _, o := range ex.Call(st, cls, []Val{&PtrV{Obj: tobj}, d}, nil) {
				n++
				if o.Panic || len(problemEvents(o.St.Events)) > 0 {
					ok, why = false, "Close may panic: "+o.Msg+fmtEvents(problemEvents(o.St.Events))
					continue
				}
				tsl, _ := o.St.heap[tobj].(*SliceV)
				got, okS := ex.sliceElems(o.St, tsl)
				want := len(evs)
				if k != closed {
					want++
				}
				if !okS || len(got) != want {
					ok, why = false, fmt.Sprintf("Close on the %s track leaves %d events, expected %d (exactly one end-of-track at the end, none added to a closed track)", names[k], len(got), want)
					continue
				}
				last, _ := got[len(got)-1].(*StructV)
				if last == nil || !isEOT(o.St, ex, last) {
					ok, why = false, "the last event after Close is not the end-of-track event FF 2F 00"
					continue
				}
				if k != closed {
					if dl, _ := last.Fields[fieldIndex(last.T, "Delta")].(*IntV); dl == nil || !o.St.sameInt(dl, d) {
						ok, why = false, "the end-of-track event does not carry the delta given to Close"
					}
				}
				for i := 0; i < len(evs) && i < len(got)-1; i++ {
					if g, _ := got[i].(*StructV); g == nil || isEOT(o.St, ex, g) {
						ok, why = false, "an end-of-track event sits before the last position after Close"
					}
				}
			}
			c.Check(ok && n > 0, rule, "Track.Close on the "+names[k]+" track", p.Pos(cls.Pos()), "exactly one end-of-track event, at the end, with the given delta; a closed track is left as it is", why)
		}
	}
	// Add on a closed track
	{
		ex := NewExec(p)
		st := ex.NewState()
		tobj, evs := mkTrack(ex, st, closed)
		d := mkSym(ex.syms.Get("da", 32, false))
		m := ex.mkBytes(st, "mnew", []Val{k8(0x81), dataTok(ex, st, "k"), dataTok(ex, st, "v")}, false, 0)
		mid := ex.newObj(st, &ArrayV{Elem: m1Type(add), Segs: []Seg{{Elems: []Val{m}}}}, nil)
		one := mkConst(1, 64, true)
		ok, why, n := true, "", 0
		for _, o := range ex.Call(st, add, []Val{&PtrV{Obj: tobj}, d, &SliceV{Obj: mid, Off: mkConst(0, 64, true), Len: one, Cap: one}}, nil) {
			n++
			if o.Panic {
				ok, why = false, o.Msg
				continue
			}
			tsl, _ := o.St.heap[tobj].(*SliceV)
			got, okS := ex.sliceElems(o.St, tsl)
			if !okS || len(got) != len(evs) {
				ok, why = false, fmt.Sprintf("Add on a closed track leaves %d events (it had %d): events after the end-of-track event make the track chunk invalid", len(got), len(evs))
				continue
			}
			last, _ := got[len(got)-1].(*StructV)
			if last == nil || !isEOT(o.St, ex, last) {
				ok, why = false, "Add on a closed track replaces the end-of-track event"
			}
		}
		c.Check(ok && n > 0, rule, "Track.Add on the closed track", p.Pos(add.Pos()), "nothing is appended behind the end-of-track event", why)
	}
}

// headerCountRule (C03.2): count stored in the header derives from len(Tracks); the chunk loop ranges over the same
// slice; exactly one chunk flush per iteration on every non-returning path.
func headerCountRule(c *Ctx, rule string, writeTo *ssa.Function) {
	p := c.P
	// (i) store numTracks <- convert(len(load Tracks))
	var tracksField *types.Var
	okStore := false
	for _, b := range writeTo.Blocks {
		for _, in := range b.Instrs {
			st, ok := in.(*ssa.Store)
			if !ok {
				continue
			}
			fv := fieldVar(st.Addr)
			if !p.isRoleField(fv, "smf.SMF", "numTracks") {
				continue
			}
			v := st.Val
			if cv, ok := v.(*ssa.Convert); ok {
				v = cv.X
			}
			if call, ok := v.(*ssa.Call); ok {
				if bi, ok := call.Call.Value.(*ssa.Builtin); ok && bi.Name() == "len" {
					if l, ok := call.Call.Args[0].(*ssa.UnOp); ok {
						if tf := fieldVar(l.X); tf != nil {
							tracksField = tf
							okStore = true
						}
					}
				}
			}
		}
	}
	// the refresh must happen on every call: it dominates everything that serialises (no path to a module call avoids it)
	if okStore {
		var theStore ssa.Instruction
		for _, b := range writeTo.Blocks {
			for _, in := range b.Instrs {
				if st, ok := in.(*ssa.Store); ok {
					if fv := fieldVar(st.Addr); p.isRoleField(fv, "smf.SMF", "numTracks") {
						theStore = st
					}
				}
			}
		}
		for _, call := range calls(writeTo) {
			f := call.Common().StaticCallee()
			if f == nil || !InModule(f) || theStore == nil {
				continue
			}
			if canReachFromEntryAvoiding(writeTo, call, map[ssa.Instruction]bool{theStore: true}) {
				okStore = false
			}
		}
		// and the count must not be read before it is refreshed
		for _, b := range writeTo.Blocks {
			for _, in := range b.Instrs {
				if l, ok := in.(*ssa.UnOp); ok && l.Op == token.MUL {
					if fv := fieldVar(l.X); p.isRoleField(fv, "smf.SMF", "numTracks") && theStore != nil && !instrDominates(theStore, l) {
						okStore = false
					}
				}
			}
		}
	}
	c.Check(okStore, rule, "header track count <- len(Tracks)", p.Pos(writeTo.Pos()), "the count written into the header is len of the track slice, refreshed unconditionally on every call", "the header's track count is not (always) refreshed from len(Tracks): a stale count from an earlier write or read can be written")
	if tracksField == nil {
		return
	}
	// (ii) outermost loop whose trip bound is len(load Tracks) and (iii) exactly one flush per iteration
	chunkT := p.roleT("smf.chunk")
	var chunkWT *ssa.Function
	if chunkT != nil {
		chunkWT = p.MethodOf(types.NewPointer(chunkT), "WriteTo")
	}
	// flush functions: module functions that serialise a chunk held in a struct field (the track chunk),
	// as opposed to the header chunk which is a local of the header writer
	flushFns := map[*ssa.Function]bool{}
	for _, f := range p.Reachable(writeTo) {
		for _, call := range calls(f) {
			if call.Common().StaticCallee() == chunkWT && chunkWT != nil && len(call.Common().Args) > 0 {
				if _, ok := call.Common().Args[0].(*ssa.FieldAddr); ok {
					flushFns[f] = true
				}
			}
		}
	}
	reachesFlush := func(f *ssa.Function) bool {
		if f == nil {
			return false
		}
		for _, g := range p.Reachable(f) {
			if flushFns[g] {
				return true
			}
		}
		return false
	}
	found := false
	loops := naturalLoops(writeTo)
	for _, l := range loops {
		// flush calls in body
		var flushes []ssa.Instruction
		for b := range l.Body {
			for _, in := range b.Instrs {
				if call, ok := in.(*ssa.Call); ok {
					if f := call.Common().StaticCallee(); f != nil && InModule(f) && reachesFlush(f) {
						flushes = append(flushes, call)
					}
				}
			}
		}
		if len(flushes) == 0 {
			continue
		}
		// the track loop is the innermost loop containing the flush
		inner := false
		for _, o := range loops {
			if o != l && l.Body[o.Head] && o.Body[flushes[0].Block()] {
				inner = true
			}
		}
		if inner {
			continue
		}
		found = true
		// bound: head compares induction var with len(load tracksField)
		bound := false
		for _, in := range l.Head.Instrs {
			if cmp, ok := in.(*ssa.BinOp); ok && cmp.Op == token.LSS {
				if call, ok := cmp.Y.(*ssa.Call); ok {
					if bi, ok := call.Call.Value.(*ssa.Builtin); ok && bi.Name() == "len" {
						if ld, ok := call.Call.Args[0].(*ssa.UnOp); ok && fieldVar(ld.X) == tracksField {
							bound = true
						}
					}
				}
			}
		}
		c.Check(bound, rule, "chunk loop ranges over the same track slice", p.Pos(l.Head.Instrs[0].Pos()), "loop bound is len(Tracks)", "the loop that emits chunks is not bounded by len(Tracks)")
		// exactly once per iteration: from body entry to any back edge must pass a flush; between two flushes the head must be passed
		avoid := map[ssa.Instruction]bool{}
		for _, f := range flushes {
			avoid[f] = true
		}
		ok := true
		why := ""
		var bodyEntry *ssa.BasicBlock
		for _, s := range l.Head.Succs {
			if l.Body[s] && s != l.Head {
				bodyEntry = s
			}
		}
		if bodyEntry == nil {
			ok = false
			why = "no body entry"
		} else {
			// path body entry -> head avoiding flushes?
			seen := map[*ssa.BasicBlock]bool{}
			var walk func(b *ssa.BasicBlock) bool
			walk = func(b *ssa.BasicBlock) bool {
				if b == l.Head {
					return true
				}
				if seen[b] || !l.Body[b] {
					return false
				}
				seen[b] = true
				for _, in := range b.Instrs {
					if avoid[in] {
						return false
					}
				}
				for _, s := range b.Succs {
					if walk(s) {
						return true
					}
				}
				return false
			}
			if walk(bodyEntry) {
				ok = false
				why = "an iteration can return to the loop head without flushing a chunk"
			}
			// at most once: from after a flush, another flush reachable without passing the head?
			for _, f := range flushes {
				seen2 := map[*ssa.BasicBlock]bool{}
				var w2 func(b *ssa.BasicBlock, i int) bool
				w2 = func(b *ssa.BasicBlock, i int) bool {
					for ; i < len(b.Instrs); i++ {
						if avoid[b.Instrs[i]] {
							return true
						}
					}
					for _, s := range b.Succs {
						if s == l.Head || seen2[s] || !l.Body[s] {
							continue
						}
						seen2[s] = true
						if w2(s, 0) {
							return true
						}
					}
					return false
				}
				if w2(f.Block(), instrIndex(f)+1) {
					ok = false
					why = "two chunk flushes possible within one iteration"
				}
			}
		}
		c.Check(ok, rule, "exactly one chunk per track iteration", p.Pos(flushes[0].Pos()), "every path through one iteration that returns to the loop head flushes exactly one chunk", why)
		// nothing in WriteTo changes the length of the track slice after the count is taken: no store to the Tracks field
		for _, b := range writeTo.Blocks {
			for _, in := range b.Instrs {
				if st, ok := in.(*ssa.Store); ok && fieldVar(st.Addr) == tracksField {
					c.Bad(rule, "Tracks reassigned in WriteTo", p.Pos(st.Pos()), "the track slice is replaced after its length was written into the header")
				}
			}
		}
	}
	if !found {
		c.Unk(rule, "chunk loop", p.Pos(writeTo.Pos()), "no loop in WriteTo flushes chunks")
	}
}

// formatPromotion (C03.9): every store to the format field in WriteTo is the constant 1, guarded by (count > 1 && format == 0).
func formatPromotion(c *Ctx, rule string, writeTo *ssa.Function) {
	p := c.P
	n := 0
	for _, b := range writeTo.Blocks {
		for _, in := range b.Instrs {
			st, ok := in.(*ssa.Store)
			if !ok {
				continue
			}
			fv := fieldVar(st.Addr)
			if !p.isRoleField(fv, "smf.SMF", "format") {
				continue
			}
			n++
			k, isC := constInt(st.Val)
			g1, g2 := false, false
			for _, bb := range writeTo.Blocks {
				if len(bb.Instrs) == 0 {
					continue
				}
				iff, ok := bb.Instrs[len(bb.Instrs)-1].(*ssa.If)
				if !ok {
					continue
				}
				f, okf := condFact(iff.Cond, true)
				if !okf {
					continue
				}
				te, _ := ifEdges(iff)
				if !(edgeDominates(writeTo, te, b) || te.to == b) {
					continue
				}
				if kk, ok := constInt(f.Y); ok {
					if l, ok := f.X.(*ssa.UnOp); ok {
						if lf := fieldVar(l.X); lf != nil {
							if p.logicalFieldName(lf) == "numTracks" && f.Op == token.GTR && kk == 1 {
								g1 = true
							}
							if p.logicalFieldName(lf) == "format" && f.Op == token.EQL && kk == 0 {
								g2 = true
							}
						}
					}
				}
			}
			c.Check(isC && k == 1 && g1 && g2, rule, "format promotion 0 -> 1", p.Pos(st.Pos()), "the only format change is 0 -> 1 when more than one track is written", fmt.Sprintf("format field changed outside the rule (format 0, >1 tracks) -> 1 (const1=%v guardCount=%v guardFormat=%v)", isC && k == 1, g1, g2))
		}
	}
	if n == 0 {
		c.Bad(rule, "format promotion 0 -> 1", p.Pos(writeTo.Pos()), "WriteTo never promotes format 0 with several tracks to format 1")
	}
}

func checkC03(c *Ctx) {
	p := c.P
	c.Level = "other"
	c.Explain = "C03 decided clause by clause: chunk framing, header layout and the VLQ codec by abstract interpretation against the SMF 1.0 layout (bit for bit, symbolic body/values), header count vs. chunks, end-of-track discipline, format promotion and size accounting by path rules on SSA, determinism by an effect scan of the write path. Not decided: that a strict parser recovers the event content of a chunk body (see C01 for the per-event codec), more than 65535 tracks, bodies >= 2 GiB."
	c.Trusted = []string{"go/ssa", "E-abs transfer functions / summaries (bytes.Buffer, binary.Write)", "SMF 1.0 layout tables in the checker"}
	c.Rule("C03.1", "chunk framing: the chunk serialiser hands the destination, in one Write, the 4 type bytes, len(body) as big-endian u32 and that same body", 1)
	c.Rule("C03.2", "header count = chunks written: whole-file simulation of WriteTo with an arbitrary stale cached count — the header declares len(Tracks) and exactly one MTrk chunk per track follows, in order, nothing after the last", 1)
	c.Rule("C03.3", "header layout: MThd, length 6, format u16be, track count u16be, division (metric: u16be with bit 15 = 0 after the 32767 clamp, 0 -> 960; time code: -(fps) as int8, subframes)", 3)
	c.Rule("C03.4", "end-of-track discipline (track cells): IsClosed, Close and Add are interpreted on an empty, an open, a closed and a nearly-closed (FF 2F 01 xx) track — Close appends the end-of-track event exactly when the track is open, Add stores nothing on a closed track and every message on an open one", 4)
	c.Rule("C03.5", "determinism: no map range, clock, random source, goroutine or select reachable from WriteTo", 1)
	c.Rule("C03.6", "size accounting: in the whole-file simulation of WriteTo the size reported on success is the number of bytes handed to the destination (until round 5 a flow rule \"the destination flows only into the counting wrapper, WriteTo returns a load of its counter\" stood here; it alarmed on a counter read through an accessor)", 1)
	c.Rule("C03.7", "VLQ codec: encoder output equals the canonical encoding bit for bit in each magnitude cell; decoder = concatenation of 7-bit groups incl. non-minimal encodings; decode(encode(n)) = n", 5)
	c.Rule("C03.8", "running status only where the format allows: per-event encoder table (see C01.2)", 4)
	c.Rule("C03.9", "format promotion: (format 0, >1 tracks) -> format 1 and no other format change in WriteTo", 1)
	c.Rule("C03.12", "content: in the whole-file simulation every event of every kind a file can hold (the seven channel kinds, a text meta event, a meta event of an undefined type, a complete sysex, an F7 packet; without and with a logger) is written as VLQ(its delta) followed by its bytes in SMF framing, once and in order — the strict parser recovers exactly what was written (= C01.7)", 1)

	writeTo := p.Method("smf", "SMF", "WriteTo")
	if writeTo == nil {
		c.Unk("C03.1", "anchor WriteTo", "-", "not resolved")
		return
	}
	scope := minus(p.Reachable(writeTo), loggerFuncs(p))
	ruleChunkFraming(c, "C03.1")
	runWriteToSim(c, "", "C03.2", "C03.9", "C03.6", "C03.12")
	ruleHeaderWrite(c, "C03.3")
	trackAppendDiscipline(c, "C03.4")
	nondetScan(c, "C03.5", scope)
	if c.Tier == "thorough" || true {
		ruleVLQ(c, "C03.7", "C03.7", "C03.7")
	}
	ruleEventEncode(c, "C03.8")
	ruleTrackFlush(c, "C03.8")
	runWriteToSimRS(c, "C03.8")
	c.Rule("C03.10", "messages built by the library's own meta constructors are well-formed events: FF, type, canonical VLQ length, payload (= C15.1) — the writer emits message bytes verbatim, so a malformed constructor result makes the file invalid", 17)
	c.include(checkC15, map[string]string{"C15.1": "C03.10"})
	c.Rule("C03.11", "no trailing bytes in a file written by name: every function of package smf that hands an *os.File to WriteTo obtained it from a call that yields an EMPTY file (os.Create, os.CreateTemp, os.OpenFile with constant flags containing O_TRUNC or O_CREATE|O_EXCL)", 1)
	ruleEmptyDestination(c, "C03.11", writeTo)
}

// ruleEmptyDestination: WriteTo emits exactly the file's bytes; a by-name wrapper (WriteFile) adds trailing bytes when
// the file it opens already holds more than that. Checked on every call of WriteTo inside the module whose destination
// is an *os.File: the file value must be the result of a creating call that leaves the file empty.
func ruleEmptyDestination(c *Ctx, rule string, writeTo *ssa.Function) {
	p := c.P
	n := 0
	for fn := range p.All {
		if !InModule(fn) || fn.Pkg == nil || fn.Pkg != writeTo.Pkg {
			continue
		}
		for _, call := range calls(fn) {
			if call.Common().StaticCallee() != writeTo || len(call.Common().Args) < 2 {
				continue
			}
			dst := strip(call.Common().Args[1])
			if dst == nil || dst.Type().String() != "*os.File" {
				continue
			}
			n++
			key := "destination of WriteTo in " + FuncName(fn)
			ex, _ := dst.(*ssa.Extract)
			var cc *ssa.Call
			if ex != nil {
				cc, _ = ex.Tuple.(*ssa.Call)
			}
			if cc == nil {
				c.Unk(rule, key, p.Pos(call.Pos()), "the file is not the direct result of a creating call: cannot tell whether it is empty")
				continue
			}
			switch q := calleeQual(cc); q {
			case "os.Create", "os.CreateTemp":
				c.OK(rule, key, p.Pos(cc.Pos()), q+" yields an empty file")
			case "os.OpenFile":
				flag, ok := constInt(cc.Common().Args[1])
				const oCreate, oExcl, oTrunc, oAppend = 0x40, 0x80, 0x200, 0x400
				switch {
				case !ok:
					c.Unk(rule, key, p.Pos(cc.Pos()), "os.OpenFile with flags that are not a constant")
				case flag&oAppend != 0:
					c.Bad(rule, key, p.Pos(cc.Pos()), "the file is opened with O_APPEND: the SMF is written behind whatever the file already holds")
				case flag&oTrunc != 0 || (flag&oCreate != 0 && flag&oExcl != 0):
					c.OK(rule, key, p.Pos(cc.Pos()), fmt.Sprintf("os.OpenFile with flags %#x yields an empty file", flag))
				default:
					c.Bad(rule, key, p.Pos(cc.Pos()), fmt.Sprintf("os.OpenFile with flags %#x neither truncates nor insists on a new file: when the target already holds a longer file, its tail stays behind the SMF (trailing bytes; file size differs from the size WriteTo reports)", flag))
				}
			default:
				c.Unk(rule, key, p.Pos(cc.Pos()), "file obtained from "+q+": cannot tell whether it is empty")
			}
		}
	}
	if n == 0 {
		c.Unk(rule, "by-name writer", "-", "no call of WriteTo with an *os.File destination found in package smf (WriteFile?)")
	}
}
